// Package taint is engine D of DESIGN.md: a whole-module, context-insensitive, field-sensitive
// may-alias analysis ("which values may reference memory of an input packet buffer") with an
// inclusion-based points-to component, used to prove that no such value is stored into an
// object that outlives the call (C10) and that Frame views are re-slices of the input (C16).
package taint

import (
	"fmt"
	"go/token"
	"go/types"
	"sort"
	"strings"

	"golang.org/x/tools/go/ssa"

	"pv/core"
)

// PathSet: set of access paths (field names and "[]" element steps joined by ".") that are
// tainted relative to a value or location; "" is the value itself.
type PathSet map[string]bool

func (p PathSet) add(path string) bool {
	if p[path] {
		return false
	}
	p[path] = true
	return true
}

// under returns the paths of p below prefix (prefix itself -> ""), or everything when an ancestor is tainted.
func (p PathSet) under(prefix string) []string {
	var out []string
	for q := range p {
		switch {
		case q == prefix:
			out = append(out, "")
		case prefix == "" && q != "":
			out = append(out, q)
		case strings.HasPrefix(q, prefix+"."):
			out = append(out, q[len(prefix)+1:])
		case q == "" || strings.HasPrefix(prefix, q+".") || prefix == q:
			// an ancestor is wholly tainted
			out = append(out, "")
		}
	}
	return out
}

func join(a, b string) string {
	if a == "" {
		return b
	}
	if b == "" {
		return a
	}
	return a + "." + b
}

// Loc is an abstract memory location: a base object and a path inside it.
type Loc struct {
	Base string // "A:<id>" per-site alloc, "T:<type>" type-based heap object, "G:<global>", "U:<type>" unknown pointee
	Path string
}

func (l Loc) String() string { return l.Base + "/" + l.Path }

type LocSet map[Loc]bool

// Sink is one retention point (an obligation of C10).
type Sink struct {
	Instr   ssa.Instruction
	Kind    string // store, mapupdate, send, go, append, global
	Target  string // description of the long-lived target
	Tainted bool
	Paths   []string // tainted paths of the stored value
	Why     []string // explanation chain back to a seed
	Sanit   string   // how the value is known clean (basis)
}

type Engine struct {
	P    *core.Program
	fns  []*ssa.Function
	val  map[ssa.Value]PathSet
	pts  map[ssa.Value]LocSet
	alias map[string]string // "A:<id>" of an escaping named-struct allocation -> its type bucket "T:<type>"
	cell map[Loc]bool      // tainted cells
	cellIdx map[string]map[string]bool // base -> tainted paths
	cptsIdx map[string]map[string]bool // base -> paths that hold pointers
	valBase map[string]ssa.Value       // "V:<ptr>" -> slice/array value whose elements the location denotes
	allocOf map[string]*ssa.Alloc      // "A:<id>" -> alloc
	typeByKey map[string]types.Type
	allocStores map[*ssa.Alloc][]*ssa.Store // whole-variable stores to a captured-only local
	cpts map[Loc]LocSet    // pointers stored in cells
	long map[string]bool   // long-lived bases
	orig map[ssa.Value]Loc // slice/map values loaded from a cell: where their elements live
	why  map[string]string // first reason for a taint fact
	prev map[string]string // predecessor fact of a taint fact (for explanations)
	cur  string            // predecessor key in effect while propagating
	ids  map[*ssa.Alloc]int
	// configuration
	Seeds      map[*ssa.Parameter]PathSet
	FrameLinks []*ssa.Parameter // Frame-typed entry parameters: receive the taint of Parse's result
	ParseFn    *ssa.Function
	RootTypes  map[string]bool // named struct types that are long-lived by definition
	Fresh      map[string]string
	Externals  map[string]int // external callees seen with default propagation
	changed    bool
	retVal     map[*ssa.Function]PathSet
	retPts     map[*ssa.Function][]LocSet
	closures   map[*ssa.Function][]*ssa.MakeClosure
}

func New(p *core.Program) *Engine {
	e := &Engine{P: p, alias: map[string]string{}, val: map[ssa.Value]PathSet{}, pts: map[ssa.Value]LocSet{}, cell: map[Loc]bool{}, cpts: map[Loc]LocSet{},
		long: map[string]bool{}, orig: map[ssa.Value]Loc{}, why: map[string]string{}, prev: map[string]string{}, ids: map[*ssa.Alloc]int{},
		Seeds: map[*ssa.Parameter]PathSet{}, RootTypes: map[string]bool{}, Externals: map[string]int{},
		retVal: map[*ssa.Function]PathSet{}, retPts: map[*ssa.Function][]LocSet{}, closures: map[*ssa.Function][]*ssa.MakeClosure{},
		cellIdx: map[string]map[string]bool{}, cptsIdx: map[string]map[string]bool{}, valBase: map[string]ssa.Value{}, allocOf: map[string]*ssa.Alloc{}, typeByKey: map[string]types.Type{}, allocStores: map[*ssa.Alloc][]*ssa.Store{}}
	e.fns = p.ModuleFunctions()
	e.Fresh = freshTable()
	return e
}

// freshTable: external (and a few module) callees whose result never aliases their arguments,
// each with the reason (confirmed by reading the pinned sources).
func freshTable() map[string]string {
	return map[string]string{
		"github.com/irai/packet.CopyIP":       "len 4: net.IP.To16 allocates a 16-byte slice (net/ip.go IPv4 -> make); otherwise make+copy",
		"(net.IP).Mask":                       "net.IP.Mask allocates the result with make (net/ip.go)",
		"(net.IP).String":                     "string",
		"(net/netip.Addr).AsSlice":            "allocates from the value-type address",
		"(net/netip.Addr).As4":                "array value",
		"(net/netip.Addr).As16":               "array value",
		"net/netip.AddrFromSlice":             "netip.Addr is a value type without byte slices",
		"net/netip.AddrFrom4":                 "value type",
		"net/netip.AddrFrom16":                "value type",
		"net.CIDRMask":                        "allocates",
		"net.ParseIP":                         "allocates",
		"(net.HardwareAddr).String":           "string",
		"strings.Split":                       "strings",
		"(*bytes.Buffer).Bytes":               "aliases the buffer's own storage, which was filled by Write (copy)",
		"encoding/hex.EncodeToString":         "string",
		"gopkg.in/yaml.v2.Marshal":            "allocates its output",
		"io/ioutil.ReadFile":                  "allocates",
		"(golang.org/x/net/dns/dnsmessage.Parser).UnknownResource":  "message.go unpackUnknownResource: out := make([]byte, length); copy",
		"(*golang.org/x/net/dns/dnsmessage.Parser).UnknownResource": "message.go unpackUnknownResource: out := make([]byte, length); copy",
		"(*golang.org/x/net/dns/dnsmessage.Message).Pack":           "allocates the packed message",
	}
}

func isAliasEntry(reason string) bool { return strings.HasPrefix(reason, "ALIAS") }

// ---------------- type predicates ----------------

var taintableCache = map[types.Type]bool{}

// Taintable: a value of type t can hold a reference into a byte buffer.
func Taintable(t types.Type) bool {
	return taintableRec(t, map[types.Type]bool{}, 0)
}

func taintableRec(t types.Type, seen map[types.Type]bool, depth int) bool {
	if t == nil || depth > 8 {
		return false
	}
	if v, ok := taintableCache[t]; ok {
		return v
	}
	if seen[t] {
		return false
	}
	seen[t] = true
	res := false
	switch u := t.Underlying().(type) {
	case *types.Basic:
		res = u.Kind() == types.UnsafePointer
	case *types.Slice:
		if b, ok := u.Elem().Underlying().(*types.Basic); ok {
			res = b.Kind() == types.Uint8 || b.Kind() == types.Int8
		} else {
			res = taintableRec(u.Elem(), seen, depth+1)
		}
	case *types.Array:
		res = taintableRec(u.Elem(), seen, depth+1)
	case *types.Pointer:
		if a, ok := u.Elem().Underlying().(*types.Array); ok {
			if b, ok := a.Elem().Underlying().(*types.Basic); ok && b.Kind() == types.Uint8 {
				res = true // *[N]byte can point into a buffer
				break
			}
		}
		res = taintableRec(u.Elem(), seen, depth+1)
	case *types.Struct:
		for i := 0; i < u.NumFields(); i++ {
			if taintableRec(u.Field(i).Type(), seen, depth+1) {
				res = true
				break
			}
		}
	case *types.Map:
		res = taintableRec(u.Key(), seen, depth+1) || taintableRec(u.Elem(), seen, depth+1)
	case *types.Chan:
		res = taintableRec(u.Elem(), seen, depth+1)
	case *types.Interface:
		res = true
	case *types.Signature:
		res = true // closures can capture
	case *types.Tuple:
		for i := 0; i < u.Len(); i++ {
			if taintableRec(u.At(i).Type(), seen, depth+1) {
				res = true
			}
		}
	}
	if depth == 0 {
		taintableCache[t] = res
	}
	return res
}

func isByteSlice(t types.Type) bool {
	if s, ok := t.Underlying().(*types.Slice); ok {
		if b, ok := s.Elem().Underlying().(*types.Basic); ok {
			return b.Kind() == types.Uint8
		}
	}
	return false
}

func namedStruct(t types.Type) (*types.Named, bool) {
	if p, ok := t.Underlying().(*types.Pointer); ok {
		t = p.Elem()
	}
	nt, ok := t.(*types.Named)
	if !ok {
		return nil, false
	}
	_, isStruct := nt.Underlying().(*types.Struct)
	return nt, isStruct
}

func (e *Engine) tkey(nt *types.Named) string {
	k := typeKey(nt)
	if _, ok := e.typeByKey[k]; !ok {
		e.typeByKey[k] = nt
	}
	return k
}

func typeKey(nt *types.Named) string {
	if nt.Obj().Pkg() == nil {
		return nt.Obj().Name()
	}
	return nt.Obj().Pkg().Path() + "." + nt.Obj().Name()
}

// ---------------- fact helpers ----------------

func (e *Engine) vset(v ssa.Value) PathSet {
	s := e.val[v]
	if s == nil {
		s = PathSet{}
		e.val[v] = s
	}
	return s
}

func (e *Engine) taintVal(v ssa.Value, path, why string) {
	if v == nil {
		return
	}
	if !typeCanCarry(v.Type(), path) {
		return
	}
	if e.vset(v).add(path) {
		e.changed = true
		k := fmt.Sprintf("v:%p:%s", v, path)
		if _, ok := e.why[k]; !ok {
			e.why[k] = fmt.Sprintf("%s [%s %s in %s]", why, v.Name(), dotPath(path), fnOf(v))
			if e.cur != "" && e.cur != k {
				e.prev[k] = e.cur
			}
		}
	}
}

// typeCanCarry: the component of type t at path exists and can hold a buffer reference.
func typeCanCarry(t types.Type, path string) bool {
	if strings.Count(path, ".") > 7 {
		return false
	}
	ct, st := typeAt(t, path)
	switch st {
	case pathInvalid:
		return false
	case pathOpaque:
		return true
	}
	return Taintable(ct)
}

const (
	pathOK = iota
	pathOpaque  // crosses an interface / unknown shape: cannot be validated
	pathInvalid // no such component in the static type
)

// typeAt resolves the static type at path inside t.
func typeAt(t types.Type, path string) (types.Type, int) {
	if path == "" {
		return t, pathOK
	}
	steps := strings.Split(path, ".")
	for _, st := range steps {
		if t == nil {
			return nil, pathOpaque
		}
		if p, ok := t.Underlying().(*types.Pointer); ok {
			t = p.Elem()
		}
		switch u := t.Underlying().(type) {
		case *types.Struct:
			found := false
			for i := 0; i < u.NumFields(); i++ {
				if u.Field(i).Name() == st {
					t = u.Field(i).Type()
					found = true
					break
				}
			}
			if !found {
				return nil, pathInvalid
			}
		case *types.Slice:
			if st != "[]" {
				return nil, pathInvalid
			}
			t = u.Elem()
		case *types.Array:
			if st != "[]" {
				return nil, pathInvalid
			}
			t = u.Elem()
		case *types.Map:
			if st != "[]" {
				return nil, pathInvalid
			}
			t = u.Elem()
		case *types.Tuple:
			if strings.HasPrefix(st, "#") {
				var i int
				fmt.Sscanf(st, "#%d", &i)
				if i < u.Len() {
					t = u.At(i).Type()
					continue
				}
			}
			return nil, pathInvalid
		case *types.Interface, *types.Signature:
			return nil, pathOpaque
		case *types.Basic:
			return nil, pathInvalid
		default:
			return nil, pathOpaque
		}
	}
	return t, pathOK
}

func (e *Engine) taintCell(l Loc, why string) {
	if strings.Count(l.Path, ".") > 7 {
		return
	}
	if bt := e.baseType(l.Base); bt != nil {
		if _, st := typeAt(bt, l.Path); st == pathInvalid {
			return
		}
	}
	if !e.cell[l] {
		e.cell[l] = true
		if e.cellIdx[l.Base] == nil {
			e.cellIdx[l.Base] = map[string]bool{}
		}
		e.cellIdx[l.Base][l.Path] = true
		e.changed = true
		k := "c:" + l.String()
		if _, ok := e.why[k]; !ok {
			e.why[k] = why
			if e.cur != "" && e.cur != k {
				e.prev[k] = e.cur
			}
		}
	}
}

// baseType returns the static type of the object denoted by a base, when known.
func (e *Engine) baseType(base string) types.Type {
	if a := e.allocOf[base]; a != nil {
		return a.Type().Underlying().(*types.Pointer).Elem()
	}
	if strings.HasPrefix(base, "T:") {
		return e.typeByKey[base[2:]]
	}
	return nil
}

func (e *Engine) addPts(v ssa.Value, l Loc) {
	s := e.pts[v]
	if s == nil {
		s = LocSet{}
		e.pts[v] = s
	}
	if !s[l] {
		s[l] = true
		e.changed = true
	}
}

func (e *Engine) addCellPts(c Loc, l Loc) {
	s := e.cpts[c]
	if s == nil {
		s = LocSet{}
		e.cpts[c] = s
		if e.cptsIdx[c.Base] == nil {
			e.cptsIdx[c.Base] = map[string]bool{}
		}
		e.cptsIdx[c.Base][c.Path] = true
	}
	if !s[l] {
		s[l] = true
		e.changed = true
	}
}

func (e *Engine) markLong(base, why string) {
	if !e.long[base] {
		e.long[base] = true
		e.changed = true
		e.why["l:"+base] = why
	}
}

// locsOf returns the abstract locations a pointer-typed value may point to.
func (e *Engine) locsOf(v ssa.Value) []Loc {
	if g, ok := v.(*ssa.Global); ok {
		return []Loc{{Base: "G:" + g.String()}}
	}
	if s := e.pts[v]; len(s) > 0 {
		out := make([]Loc, 0, len(s))
		for l := range s {
			out = append(out, l)
		}
		return out
	}
	// fallback: type-based bucket
	if p, ok := v.Type().Underlying().(*types.Pointer); ok {
		if nt, ok := namedStruct(p.Elem()); ok {
			return []Loc{{Base: "T:" + e.tkey(nt)}}
		}
		return []Loc{{Base: "U:" + p.Elem().String()}}
	}
	return nil
}

func fieldName(t types.Type, i int) string {
	if p, ok := t.Underlying().(*types.Pointer); ok {
		t = p.Elem()
	}
	if st, ok := t.Underlying().(*types.Struct); ok && i < st.NumFields() {
		return st.Field(i).Name()
	}
	return fmt.Sprint(i)
}

// ---------------- the analysis ----------------

func (e *Engine) Run() {
	// allocation ids, closures
	n := 0
	for _, fn := range e.fns {
		core.EachInstr(fn, func(i ssa.Instruction) {
			switch t := i.(type) {
			case *ssa.Alloc:
				n++
				e.ids[t] = n
				e.allocOf[fmt.Sprintf("A:%d", n)] = t
			case *ssa.Store:
				if a, ok := t.Addr.(*ssa.Alloc); ok {
					e.allocStores[a] = append(e.allocStores[a], t)
				}
			case *ssa.MakeClosure:
				f := t.Fn.(*ssa.Function)
				e.closures[f] = append(e.closures[f], t)
			}
		})
	}
	for b := range e.RootTypes {
		e.markLong("T:"+b, "root state type")
	}
	for p, ps := range e.Seeds {
		for path := range ps {
			e.taintVal(p, path, "seed: parameter "+p.Name()+" of "+core.FuncName(p.Parent())+" is the input packet buffer / a view of it")
		}
	}
	for iter := 0; iter < 200; iter++ {
		e.changed = false
		for _, fn := range e.fns {
			e.flowFunc(fn)
		}
		// Frame-typed entry parameters receive what Parse returns
		if e.ParseFn != nil {
			if rv := e.retVal[e.ParseFn]; rv != nil {
				for _, fp := range e.FrameLinks {
					for q := range rv {
						if strings.HasPrefix(q, "#0") {
							sub := strings.TrimPrefix(strings.TrimPrefix(q, "#0"), ".")
							e.taintVal(fp, sub, "Frame values are produced by Session.Parse: "+q)
						}
					}
				}
			}
		}
		if !e.changed {
			break
		}
	}
}

func (e *Engine) allocLoc(a *ssa.Alloc) Loc {
	base := fmt.Sprintf("A:%d", e.ids[a])
	elem := a.Type().Underlying().(*types.Pointer).Elem()
	if a.Heap && !e.capturedOnly(a) {
		if nt, ok := namedStruct(elem); ok {
			// the object is also reachable through pointers of unknown origin: it aliases its type bucket
			e.alias[base] = "T:" + e.tkey(nt)
		}
	}
	return Loc{Base: base}
}

// capturedOnly: the alloc's address is used only by loads, stores, field/index addressing and
// closure capture (a captured local variable), never passed or stored as a value.
func (e *Engine) capturedOnly(a *ssa.Alloc) bool {
	if a.Referrers() == nil {
		return true
	}
	for _, r := range *a.Referrers() {
		switch t := r.(type) {
		case *ssa.Store:
			if t.Val == ssa.Value(a) {
				return false
			}
		case *ssa.UnOp, *ssa.FieldAddr, *ssa.IndexAddr, *ssa.MakeClosure, *ssa.DebugRef:
		default:
			return false
		}
	}
	return true
}

func (e *Engine) flowFunc(fn *ssa.Function) {
	// free variables of closures: point to what the bindings point to
	for _, mc := range e.closures[fn] {
		for i, fv := range fn.FreeVars {
			if i < len(mc.Bindings) {
				e.copyAll(mc.Bindings[i], fv, "captured by closure "+fn.Name())
			}
		}
	}
	for _, b := range fn.Blocks {
		for _, ins := range b.Instrs {
			e.flowInstr(fn, ins)
		}
	}
}

// copyAll: dst may hold whatever src holds (taint paths, points-to, element origin).
func (e *Engine) copyAll(src, dst ssa.Value, why string) {
	if src == nil || dst == nil {
		return
	}
	for q := range e.val[src] {
		e.cur = fmt.Sprintf("v:%p:%s", src, q)
		e.taintVal(dst, q, why)
	}
	e.cur = ""
	for l := range e.pts[src] {
		e.addPts(dst, l)
	}
	if o, ok := e.orig[src]; ok {
		if _, has := e.orig[dst]; !has {
			e.orig[dst] = o
			e.changed = true
		}
	}
}

func (e *Engine) flowInstr(fn *ssa.Function, ins ssa.Instruction) {
	switch t := ins.(type) {
	case *ssa.Alloc:
		e.addPts(t, e.allocLoc(t))
	case *ssa.Phi:
		for _, ed := range t.Edges {
			e.copyAll(ed, t, "phi")
		}
	case *ssa.ChangeType:
		e.copyAll(t.X, t, "conversion")
	case *ssa.ChangeInterface:
		e.copyAll(t.X, t, "conversion")
	case *ssa.MakeInterface:
		e.copyAll(t.X, t, "boxed into interface")
	case *ssa.Convert:
		// string(b) and []byte(s) copy; slice<->slice conversions alias
		if isStringT(t.Type()) || isStringT(t.X.Type()) {
			return
		}
		e.copyAll(t.X, t, "conversion")
	case *ssa.Slice:
		e.copyAll(t.X, t, "re-slice")
		// slicing a pointer to array: the slice aliases the array's memory
		if _, isPtr := t.X.Type().Underlying().(*types.Pointer); isPtr {
			for _, l := range e.locsOf(t.X) {
				for cp := range e.cellIdx[l.Base] {
					switch {
					case cp == l.Path:
						e.taintVal(t, "", "slice of tainted array "+l.String())
					case l.Path == "":
						e.taintVal(t, cp, "slice of array holding tainted elements "+l.String())
					case strings.HasPrefix(cp, l.Path+"."):
						e.taintVal(t, cp[len(l.Path)+1:], "slice of array holding tainted elements "+l.String())
					}
				}
				if _, has := e.orig[t]; !has {
					e.orig[t] = l
					e.changed = true
				}
			}
		}
	case *ssa.SliceToArrayPointer:
		e.copyAll(t.X, t, "slice to array pointer")
	case *ssa.TypeAssert:
		if t.CommaOk {
			for q := range e.val[t.X] {
				e.taintVal(t, join("#0", q), "type assertion")
			}
		} else {
			e.copyAll(t.X, t, "type assertion")
		}
	case *ssa.Extract:
		pre := fmt.Sprintf("#%d", t.Index)
		for _, q := range e.vset(t.Tuple).under(pre) {
			e.cur = fmt.Sprintf("v:%p:%s", t.Tuple, join(pre, q))
			e.taintVal(t, q, "tuple element")
		}
		e.cur = ""
		if ps := e.tuplePts(t.Tuple, t.Index); ps != nil {
			for l := range ps {
				e.addPts(t, l)
			}
		}
	case *ssa.Field:
		f := fieldName(t.X.Type(), t.Field)
		e.cur = fmt.Sprintf("v:%p:%s", t.X, f)
		for _, q := range e.vset(t.X).under(f) {
			e.taintVal(t, q, "field "+f)
		}
		e.cur = ""
	case *ssa.FieldAddr:
		f := fieldName(t.X.Type(), t.Field)
		for _, l := range e.locsOf(t.X) {
			e.addPts(t, Loc{l.Base, join(l.Path, f)})
		}
	case *ssa.IndexAddr:
		if _, isPtr := t.X.Type().Underlying().(*types.Pointer); isPtr {
			for _, l := range e.locsOf(t.X) {
				e.addPts(t, Loc{l.Base, join(l.Path, "[]")})
			}
		} else {
			// element of a slice value: lives where the slice's elements live (if known);
			// otherwise the location is rooted at the slice value itself (its own element taint)
			if o, ok := e.orig[t.X]; ok {
				e.addPts(t, Loc{o.Base, join(o.Path, "[]")})
			} else {
				b := fmt.Sprintf("V:%p", t.X)
				e.valBase[b] = t.X
				e.addPts(t, Loc{b, "[]"})
			}
		}
	case *ssa.Index:
		for _, q := range e.vset(t.X).under("[]") {
			e.taintVal(t, q, "element")
		}
	case *ssa.Lookup:
		if t.CommaOk {
			for _, q := range e.vset(t.X).under("[]") {
				e.taintVal(t, join("#0", q), "map element")
			}
		} else {
			for _, q := range e.vset(t.X).under("[]") {
				e.taintVal(t, q, "map element")
			}
		}
		if o, ok := e.orig[t.X]; ok {
			el := Loc{o.Base, join(o.Path, "[]")}
			for l := range e.cpts[el] {
				if t.CommaOk {
					// pointer inside tuple: handled by tuplePts via orig
					_ = l
				} else {
					e.addPts(t, l)
				}
			}
		}
	case *ssa.Next:
		// (ok, key, value) from a map/string iterator
		rg, ok := t.Iter.(*ssa.Range)
		if !ok {
			return
		}
		for _, q := range e.vset(rg.X).under("[]") {
			e.taintVal(t, join("#2", q), "map element (range)")
			e.taintVal(t, join("#1", q), "map key (range)")
		}
	case *ssa.UnOp:
		if t.Op == token.MUL {
			e.flowLoad(t)
		} else if t.Op == token.ARROW {
			// receive: channels carry clean values by the inductive sink argument
		}
	case *ssa.Store:
		e.flowStore(fn, t)
	case *ssa.MapUpdate:
		e.flowMapUpdate(fn, t)
	case *ssa.MakeClosure:
		// the closure value carries the taint of what it captures (by reference: the cells)
		for _, b := range t.Bindings {
			for q := range e.val[b] {
				e.taintVal(t, join("capt", q), "captured value")
			}
			for _, l := range e.locsOf(b) {
				if e.cellTaintedAt(l, t) {
					e.taintVal(t, "capt", "captured variable "+l.String()+" holds a buffer alias when the closure is created")
				}
			}
		}
	case *ssa.Call:
		e.flowCall(fn, t, t.Common(), t)
	case *ssa.Go:
		e.flowCall(fn, t, t.Common(), nil)
	case *ssa.Defer:
		e.flowCall(fn, t, t.Common(), nil)
	case *ssa.Return:
		rv := e.retVal[fn]
		if rv == nil {
			rv = PathSet{}
			e.retVal[fn] = rv
		}
		for i, r := range t.Results {
			pre := ""
			if len(t.Results) > 1 {
				pre = fmt.Sprintf("#%d", i)
			}
			for q := range e.val[r] {
				if rv.add(join(pre, q)) {
					e.changed = true
					rk := fmt.Sprintf("r:%p:%s", fn, join(pre, q))
					e.why[rk] = "returned from " + core.FuncName(fn)
					e.prev[rk] = fmt.Sprintf("v:%p:%s", r, q)
				}
			}
			for len(e.retPts[fn]) <= i {
				e.retPts[fn] = append(e.retPts[fn], LocSet{})
			}
			for l := range e.pts[r] {
				if !e.retPts[fn][i][l] {
					e.retPts[fn][i][l] = true
					e.changed = true
				}
			}
		}
	}
}

func isStringT(t types.Type) bool {
	b, ok := t.Underlying().(*types.Basic)
	return ok && b.Info()&types.IsString != 0
}

func (e *Engine) tuplePts(tuple ssa.Value, idx int) LocSet {
	call, ok := tuple.(*ssa.Call)
	if !ok {
		return nil
	}
	out := LocSet{}
	for _, callee := range e.P.Callees(call) {
		if rp := e.retPts[callee]; idx < len(rp) {
			for l := range rp[idx] {
				out[l] = true
			}
		}
	}
	return out
}

// cellTaintedAt: is location l (or anything beneath it) tainted as seen by instruction at?
// For per-site cells of the enclosing function a store that is always overwritten before
// `at` does not count (strong update along dominating stores).
func (e *Engine) cellTaintedAt(l Loc, at ssa.Instruction) bool {
	for cp := range e.cellIdx[l.Base] {
		if cp == l.Path || strings.HasPrefix(cp, l.Path+".") || l.Path == "" || strings.HasPrefix(l.Path, cp+".") {
			if at != nil && e.killedBefore(Loc{l.Base, cp}, at) {
				continue
			}
			return true
		}
	}
	return false
}

// killedBefore: cell c belongs to a local variable that is only loaded, stored and captured;
// every whole-variable store of a tainted value is followed, on all paths to `at`, by a
// whole-variable store of a clean value, and no tainting store can run after `at`.
// (This is the strong update that makes `xid = dupBytes(xid)` before `go func(){...}` clean.)
func (e *Engine) killedBefore(c Loc, at ssa.Instruction) bool {
	a := e.allocOf[c.Base]
	if a == nil || a.Parent() != at.Parent() || !e.capturedOnly(a) {
		return false
	}
	// the variable must not be written from closures
	if a.Referrers() != nil {
		for _, r := range *a.Referrers() {
			if mc, ok := r.(*ssa.MakeClosure); ok {
				f := mc.Fn.(*ssa.Function)
				for i, b := range mc.Bindings {
					if b != ssa.Value(a) || i >= len(f.FreeVars) {
						continue
					}
					fv := f.FreeVars[i]
					if fv.Referrers() != nil {
						for _, rr := range *fv.Referrers() {
							if st, ok := rr.(*ssa.Store); ok && st.Addr == ssa.Value(fv) {
								return false
							}
						}
					}
				}
			}
			if _, ok := r.(*ssa.FieldAddr); ok {
				return false // partial writes: not handled, stay conservative
			}
			if _, ok := r.(*ssa.IndexAddr); ok {
				return false
			}
		}
	}
	var taintStores, cleanStores []*ssa.Store
	for _, st := range e.allocStores[a] {
		if len(e.val[st.Val]) > 0 {
			taintStores = append(taintStores, st)
		} else {
			cleanStores = append(cleanStores, st)
		}
	}
	if len(taintStores) == 0 {
		return false // tainted some other way
	}
	for _, ts := range taintStores {
		killed := false
		for _, cs := range cleanStores {
			if core.InstrDominates(ts, cs) && core.InstrDominates(cs, at) {
				killed = true
				break
			}
		}
		if !killed || core.InstrReaches(at, ts) {
			return false
		}
	}
	return true
}

func (e *Engine) flowLoad(t *ssa.UnOp) {
	for _, l := range e.withAlias(e.locsOf(t.X)) {
		if x, ok := e.valBase[l.Base]; ok {
			e.cur = fmt.Sprintf("v:%p:%s", x, l.Path)
			for _, q := range e.vset(x).under(l.Path) {
				e.taintVal(t, q, "element of "+x.Name())
			}
			e.cur = ""
			continue
		}
		for cp := range e.cellIdx[l.Base] {
			c := Loc{l.Base, cp}
			var sub string
			switch {
			case cp == l.Path:
				sub = ""
			case l.Path == "" && cp != "":
				sub = cp
			case strings.HasPrefix(cp, l.Path+"."):
				sub = cp[len(l.Path)+1:]
			case strings.HasPrefix(l.Path, cp+".") || cp == "":
				sub = ""
			default:
				continue
			}
			if e.vset(t)[sub] {
				continue
			}
			if e.killedBefore(c, t) {
				continue
			}
			e.cur = "c:" + c.String()
			e.taintVal(t, sub, "loaded from "+c.String())
			e.cur = ""
		}
		if e.cptsIdx[l.Base][l.Path] {
			for p := range e.cpts[l] {
				e.addPts(t, p)
			}
		}
		switch t.Type().Underlying().(type) {
		case *types.Slice, *types.Map:
			if _, has := e.orig[t]; !has {
				e.orig[t] = l
				e.changed = true
			}
		}
	}
}

func (e *Engine) isLong(l Loc) bool {
	return e.long[l.Base] || strings.HasPrefix(l.Base, "G:")
}

// withAlias expands site-based locations with their type bucket (both must be written/read).
func (e *Engine) withAlias(ls []Loc) []Loc {
	out := ls
	for _, l := range ls {
		if tb, ok := e.alias[l.Base]; ok {
			out = append(out, Loc{tb, l.Path})
		}
	}
	return out
}

func (e *Engine) flowStore(fn *ssa.Function, st *ssa.Store) {
	for _, l := range e.withAlias(e.locsOf(st.Addr)) {
		if x, ok := e.valBase[l.Base]; ok {
			for q := range e.val[st.Val] {
				e.cur = fmt.Sprintf("v:%p:%s", st.Val, q)
				e.taintVal(x, join(l.Path, q), "stored into an element of "+x.Name())
			}
			e.cur = ""
			continue
		}
		for q := range e.val[st.Val] {
			e.cur = fmt.Sprintf("v:%p:%s", st.Val, q)
			e.taintCell(Loc{l.Base, join(l.Path, q)}, fmt.Sprintf("stored at %s in %s", e.P.Pos(core.PosOf(st)), core.FuncName(fn)))
		}
		e.cur = ""
		for p := range e.pts[st.Val] {
			e.addCellPts(l, p)
			if e.isLong(l) {
				e.markLong(p.Base, "pointer stored into long-lived "+l.String())
			}
		}
		// struct values containing pointers: fields' pointees become long-lived too (by type)
		if e.isLong(l) {
			e.markReachableLong(st.Val.Type(), "stored into long-lived "+l.String())
		}
	}
}

// markReachableLong: named struct types reachable through pointers/slices/maps inside t live as long as the container.
func (e *Engine) markReachableLong(t types.Type, why string) {
	seen := map[types.Type]bool{}
	var rec func(t types.Type, viaRef bool, d int)
	rec = func(t types.Type, viaRef bool, d int) {
		if t == nil || seen[t] || d > 6 {
			return
		}
		seen[t] = true
		if nt, ok := t.(*types.Named); ok {
			if _, isStruct := nt.Underlying().(*types.Struct); isStruct && viaRef && nt.Obj().Pkg() != nil && core.IsLibPath(nt.Obj().Pkg().Path()) {
				e.markLong("T:"+typeKey(nt), why)
			}
		}
		switch u := t.Underlying().(type) {
		case *types.Pointer:
			rec(u.Elem(), true, d+1)
		case *types.Slice:
			rec(u.Elem(), true, d+1)
		case *types.Map:
			rec(u.Elem(), true, d+1)
			rec(u.Key(), true, d+1)
		case *types.Array:
			rec(u.Elem(), viaRef, d+1)
		case *types.Struct:
			for i := 0; i < u.NumFields(); i++ {
				rec(u.Field(i).Type(), viaRef, d+1)
			}
		}
	}
	rec(t, false, 0)
}

func (e *Engine) flowMapUpdate(fn *ssa.Function, mu *ssa.MapUpdate) {
	why := fmt.Sprintf("map update at %s in %s", e.P.Pos(core.PosOf(mu)), core.FuncName(fn))
	for q := range e.val[mu.Value] {
		e.taintVal(mu.Map, join("[]", q), why)
	}
	for q := range e.val[mu.Key] {
		e.taintVal(mu.Map, join("[]", q), why+" (key)")
	}
	if o, ok := e.orig[mu.Map]; ok {
		el := Loc{o.Base, join(o.Path, "[]")}
		for q := range e.val[mu.Value] {
			e.taintCell(Loc{el.Base, join(el.Path, q)}, why)
		}
		for q := range e.val[mu.Key] {
			e.taintCell(Loc{el.Base, join(el.Path, q)}, why+" (key)")
		}
		for p := range e.pts[mu.Value] {
			e.addCellPts(el, p)
			if e.isLong(o) {
				e.markLong(p.Base, "pointer stored into long-lived map "+o.String())
			}
		}
		if e.isLong(o) {
			e.markReachableLong(mu.Value.Type(), "stored into long-lived map "+o.String())
		}
	}
	// taint flows back to where the map value came from (maps are references): all aliases via phi/conversion share orig;
	// a locally made map (MakeMap) keeps the taint on the SSA value, which copyAll propagates forward.
	if mm, ok := mu.Map.(*ssa.MakeMap); ok {
		_ = mm
	}
}

func calleeName(f *ssa.Function) string {
	if f.Object() != nil {
		if fo, ok := f.Object().(*types.Func); ok {
			return fo.FullName()
		}
	}
	return f.String()
}

func (e *Engine) flowCall(fn *ssa.Function, site ssa.CallInstruction, cc *ssa.CallCommon, res *ssa.Call) {
	// builtins
	if b, ok := cc.Value.(*ssa.Builtin); ok {
		switch b.Name() {
		case "append":
			if res == nil || len(cc.Args) == 0 {
				return
			}
			// result aliases the destination; elements of reference type are copied in
			e.copyAll(cc.Args[0], res, "append result aliases its first argument")
			if len(cc.Args) > 1 && !isByteSlice(res.Type()) && !isStringT(cc.Args[1].Type()) {
				for _, q := range e.vset(cc.Args[1]).under("[]") {
					e.taintVal(res, join("[]", q), "appended element")
				}
				if o, ok := e.orig[cc.Args[0]]; ok {
					for _, q := range e.vset(cc.Args[1]).under("[]") {
						e.taintCell(Loc{o.Base, join(join(o.Path, "[]"), q)}, "appended into "+o.String())
					}
				}
			}
		case "copy":
			if len(cc.Args) == 2 && !isByteSlice(cc.Args[0].Type()) && !isStringT(cc.Args[1].Type()) {
				for _, q := range e.vset(cc.Args[1]).under("[]") {
					e.taintVal(cc.Args[0], join("[]", q), "copied element")
				}
			}
		}
		return
	}
	callees := e.P.Callees(site)
	if len(callees) == 0 {
		if cc.IsInvoke() {
			e.externalCall(fn, cc.Method.FullName(), cc, res, true)
		} else {
			e.externalCall(fn, "dynamic call", cc, res, false)
		}
		return
	}
	for _, callee := range callees {
		if callee.Blocks == nil || !core.InModule(callee) {
			e.externalCall(fn, calleeName(callee), cc, res, cc.IsInvoke())
			continue
		}
		if reason, ok := e.Fresh[calleeName(callee)]; ok && !isAliasEntry(reason) {
			continue // verified sanitiser: result is fresh
		}
		// actual -> formal
		args := cc.Args
		params := callee.Params
		if cc.IsInvoke() {
			// receiver is cc.Value
			if len(params) > 0 {
				e.copyAll(cc.Value, params[0], "receiver of "+core.FuncName(callee))
				params = params[1:]
			}
		}
		for i, a := range args {
			if i < len(params) {
				e.copyAll(a, params[i], fmt.Sprintf("argument %d of %s called from %s", i, core.FuncName(callee), core.FuncName(fn)))
			}
		}
		// closure called directly: bindings flow through closures map (handled in flowFunc)
		if res != nil {
			for q := range e.retVal[callee] {
				e.cur = fmt.Sprintf("r:%p:%s", callee, q)
				e.taintVal(res, q, "returned by "+core.FuncName(callee))
			}
			e.cur = ""
			if rp := e.retPts[callee]; len(rp) == 1 {
				for l := range rp[0] {
					e.addPts(res, l)
				}
			}
		}
	}
}

// externalCall: default model for callees without source: the result and every object reachable
// through a pointer argument may alias any slice-carrying argument, unless the callee is in the fresh table.
func (e *Engine) externalCall(fn *ssa.Function, name string, cc *ssa.CallCommon, res *ssa.Call, invoke bool) {
	if reason, ok := e.Fresh[name]; ok && !isAliasEntry(reason) {
		return
	}
	var ins []ssa.Value
	if invoke {
		ins = append(ins, cc.Value)
	}
	ins = append(ins, cc.Args...)
	tainted := false
	var from string
	for _, a := range ins {
		if len(e.val[a]) > 0 {
			tainted = true
			from = a.Name()
		}
		if _, isPtr := a.Type().Underlying().(*types.Pointer); isPtr {
			for _, l := range e.locsOf(a) {
				if e.cellTaintedAt(l, nil) {
					tainted = true
					from = l.String()
				}
			}
		}
	}
	if !tainted {
		return
	}
	e.Externals[name]++
	why := fmt.Sprintf("external %s called from %s with a tainted argument (%s): result/receiver may alias it", name, core.FuncName(fn), from)
	if res != nil && Taintable(res.Type()) {
		if tp, ok := res.Type().(*types.Tuple); ok {
			for i := 0; i < tp.Len(); i++ {
				if Taintable(tp.At(i).Type()) {
					e.taintVal(res, fmt.Sprintf("#%d", i), why)
				}
			}
		} else {
			e.taintVal(res, "", why)
		}
	}
	// mutable pointer arguments (receivers): their pointee may now hold the alias
	for _, a := range ins {
		if p, isPtr := a.Type().Underlying().(*types.Pointer); isPtr && Taintable(p.Elem()) {
			for _, l := range e.locsOf(a) {
				if strings.HasPrefix(l.Base, "A:") || strings.HasPrefix(l.Base, "T:") {
					e.taintCell(l, why)
				}
			}
		}
	}
}

// ---------------- sinks ----------------

// Sinks enumerates every retention point whose stored value's type could carry a buffer
// reference, with the verdict for each.
func (e *Engine) Sinks() []Sink {
	var out []Sink
	for _, fn := range e.fns {
		if !core.InLib(fn) {
			continue
		}
		core.EachInstr(fn, func(i ssa.Instruction) {
			switch t := i.(type) {
			case *ssa.Store:
				if !Taintable(t.Val.Type()) {
					return
				}
				var target string
				for _, l := range e.locsOf(t.Addr) {
					if e.isLong(l) {
						target = l.String()
					}
				}
				if target == "" {
					return
				}
				out = append(out, e.mkSink(i, "store", target, t.Val))
			case *ssa.MapUpdate:
				if !Taintable(t.Value.Type()) && !Taintable(t.Key.Type()) {
					return
				}
				o, ok := e.orig[t.Map]
				if !ok || !e.isLong(o) {
					return
				}
				s := e.mkSink(i, "mapupdate", o.String(), t.Value)
				if len(e.val[t.Key]) > 0 {
					s.Tainted = true
					s.Paths = append(s.Paths, "key")
					s.Why = e.explain(t.Key)
				}
				out = append(out, s)
			case *ssa.Send:
				if !Taintable(t.X.Type()) {
					return
				}
				out = append(out, e.mkSink(i, "send", "channel "+t.Chan.Name(), t.X))
			case *ssa.Go:
				cc := t.Common()
				s := Sink{Instr: i, Kind: "go", Target: "goroutine " + core.CalleeName(t)}
				vals := append([]ssa.Value{}, cc.Args...)
				if cc.IsInvoke() {
					vals = append(vals, cc.Value)
				}
				if mc, ok := cc.Value.(*ssa.MakeClosure); ok {
					vals = append(vals, mc)
				}
				any := false
				for _, v := range vals {
					if Taintable(v.Type()) {
						any = true
					}
					if len(e.val[v]) > 0 {
						s.Tainted = true
						for q := range e.val[v] {
							s.Paths = append(s.Paths, v.Name()+":"+q)
						}
						s.Why = e.explain(v)
					}
				}
				if !any {
					return
				}
				if !s.Tainted {
					s.Sanit = "no argument or captured variable holds a buffer alias when the goroutine starts"
				}
				out = append(out, s)
			case *ssa.Call:
				// append into a long-lived slice
				if b, ok := t.Call.Value.(*ssa.Builtin); ok && b.Name() == "append" && len(t.Call.Args) == 2 {
					if isByteSlice(t.Type()) || !Taintable(t.Type()) {
						return
					}
					o, ok := e.orig[t.Call.Args[0]]
					if !ok || !e.isLong(o) {
						return
					}
					s := Sink{Instr: i, Kind: "append", Target: o.String()}
					for _, q := range e.vset(t.Call.Args[1]).under("[]") {
						s.Tainted = true
						s.Paths = append(s.Paths, q)
					}
					if s.Tainted {
						s.Why = e.explain(t.Call.Args[1])
					} else {
						s.Sanit = "appended elements hold no buffer alias"
					}
					out = append(out, s)
				}
			}
		})
	}
	sort.Slice(out, func(i, j int) bool { return core.PosOf(out[i].Instr) < core.PosOf(out[j].Instr) })
	return out
}

func (e *Engine) mkSink(i ssa.Instruction, kind, target string, v ssa.Value) Sink {
	s := Sink{Instr: i, Kind: kind, Target: target}
	for q := range e.val[v] {
		s.Tainted = true
		s.Paths = append(s.Paths, q)
	}
	sort.Strings(s.Paths)
	if s.Tainted {
		s.Why = e.explain(v)
	} else {
		s.Sanit = e.sanitiser(v)
	}
	return s
}

// sanitiser describes why a stored value is clean (for the evidence).
func (e *Engine) sanitiser(v ssa.Value) string {
	switch t := v.(type) {
	case *ssa.Call:
		if b, ok := t.Call.Value.(*ssa.Builtin); ok {
			return "result of builtin " + b.Name() + " on clean operands"
		}
		n := core.CalleeName(t)
		if r, ok := e.Fresh[n]; ok {
			return "fresh result of " + n + " (" + r + ")"
		}
		return "result of " + n + ", which returns no buffer alias (computed)"
	case *ssa.MakeSlice:
		return "fresh make"
	case *ssa.Alloc:
		return "fresh allocation"
	case *ssa.Const:
		return "constant"
	case *ssa.UnOp:
		return "loaded from a location that holds no buffer alias"
	case *ssa.Slice:
		return "re-slice of a clean value"
	case *ssa.Phi:
		return "all incoming values clean"
	case *ssa.MakeInterface:
		return "boxed clean value"
	case *ssa.Parameter:
		return "parameter that receives no buffer alias at any call site"
	}
	return "not tainted"
}

// explain reconstructs a chain of reasons from a tainted value back to a seed.
func (e *Engine) explain(v ssa.Value) []string {
	var out []string
	for q := range e.val[v] {
		k := fmt.Sprintf("v:%p:%s", v, q)
		for depth := 0; depth < 25 && k != ""; depth++ {
			out = append(out, e.why[k])
			k = e.prev[k]
		}
		break
	}
	return out
}

func fnOf(v ssa.Value) string {
	if v.Parent() != nil {
		return core.FuncName(v.Parent())
	}
	return "-"
}

func dotPath(q string) string {
	if q == "" {
		return ""
	}
	return "." + q
}

// ValTaint exposes the taint paths of a value (C16 must-alias and tests).
func (e *Engine) ValTaint(v ssa.Value) []string {
	var out []string
	for q := range e.val[v] {
		out = append(out, q)
	}
	sort.Strings(out)
	return out
}

// RetTaint returns the tainted paths of fn's results.
func (e *Engine) RetTaint(fn *ssa.Function) []string {
	var out []string
	for q := range e.retVal[fn] {
		out = append(out, q)
	}
	sort.Strings(out)
	return out
}

// LongLived lists the long-lived bases with the reason.
func (e *Engine) LongLived() map[string]string {
	out := map[string]string{}
	for b := range e.long {
		out[b] = e.why["l:"+b]
	}
	return out
}
