// Package bitprov is engine C: a bit-provenance evaluator for the (loop-free) field getters and
// small encoders of the view types. The value of an integer is a vector of bits, each of which is
// a constant, a named input bit (byte offset of the receiver slice / bit of a parameter) or unknown.
// Bitwise operators, shifts by constants, zero extension, truncation and the big/little-endian
// readers are exact; everything the domain cannot express becomes "unknown" (never a guess).
package bitprov

import (
	"fmt"
	"go/constant"
	"go/token"
	"go/types"
	"sort"
	"strings"

	"golang.org/x/tools/go/ssa"
)

// Bit kinds.
const (
	Zero = iota
	One
	In      // bit Idx of byte Off of the receiver slice (Src == "") or of parameter Src
	Unknown // not expressible
	InNeg   // the complement of the In bit with the same coordinates
)

type Bit struct {
	K   uint8
	Off int32
	Idx uint8
	Src string
}

// Int is a 64-bit vector (bit 0 = least significant). Sym, when set, names an opaque quantity
// (len(recv), a parameter that is not bit-tracked ...) whose bits are all Unknown.
type Int struct {
	B       [64]Bit
	Sym     string
	Min     uint64 // lower bound of an opaque (Sym) sum of non-negative terms
	NonZero bool   // an opaque value known to be different from zero
}

// NonZeroInt is an opaque value about which only "!= 0" is known.
func NonZeroInt(name string) Int {
	r := UnknownInt(name)
	r.NonZero = true
	return r
}

// lower is a lower bound of the (unsigned) value.
func (a Int) lower() uint64 {
	if a.Sym != "" {
		return a.Min
	}
	var v uint64
	for i, b := range a.B {
		if b.K == One {
			v |= 1 << uint(i)
		}
	}
	return v
}

func ConstInt(v uint64) Int {
	var r Int
	for i := 0; i < 64; i++ {
		if v>>uint(i)&1 == 1 {
			r.B[i].K = One
		}
	}
	return r
}

func UnknownInt(why string) Int {
	var r Int
	for i := range r.B {
		r.B[i].K = Unknown
	}
	r.Sym = why
	return r
}

// Byte returns the value of byte off of source src ("" = receiver).
func Byte(src string, off int) Int {
	var r Int
	for i := 0; i < 8; i++ {
		r.B[i] = Bit{K: In, Off: int32(off), Idx: uint8(i), Src: src}
	}
	return r
}

// ParamInt returns a w-bit integer parameter (bit i of parameter name).
func ParamInt(name string, w int) Int {
	var r Int
	for i := 0; i < w && i < 64; i++ {
		r.B[i] = Bit{K: In, Off: -1, Idx: uint8(i), Src: name}
	}
	return r
}

// BE is the big-endian integer of n bytes starting at off.
func BE(src string, off, n int) Int {
	var r Int
	for k := 0; k < n; k++ {
		r = r.Shl(8).Or(Byte(src, off+k))
	}
	return r
}

// LE is the little-endian integer of n bytes starting at off.
func LE(src string, off, n int) Int {
	var r Int
	for k := n - 1; k >= 0; k-- {
		r = r.Shl(8).Or(Byte(src, off+k))
	}
	return r
}

// Bits(off,hi,lo) is the field of byte off from bit hi down to bit lo, right aligned.
func Bits(src string, off, hi, lo int) Int {
	return Byte(src, off).Shr(uint(lo)).And(ConstInt(1<<uint(hi-lo+1) - 1))
}

func (a Int) IsConst() (uint64, bool) {
	var v uint64
	for i, b := range a.B {
		switch b.K {
		case One:
			v |= 1 << uint(i)
		case Zero:
		default:
			return 0, false
		}
	}
	return v, true
}

func (a Int) Shl(n uint) Int {
	var r Int
	for i := 63; i >= 0; i-- {
		if i >= int(n) {
			r.B[i] = a.B[i-int(n)]
		}
	}
	return r
}

func (a Int) Shr(n uint) Int {
	var r Int
	for i := 0; i < 64; i++ {
		if i+int(n) < 64 {
			r.B[i] = a.B[i+int(n)]
		}
	}
	return r
}

// Trunc keeps the low w bits (unsigned conversion / type width).
func (a Int) Trunc(w int) Int {
	r := a
	r.Sym = ""
	if a.Sym != "" && w >= 64 {
		r.Sym = a.Sym
	}
	for i := w; i < 64; i++ {
		r.B[i] = Bit{}
	}
	if a.Sym != "" && w < 64 {
		r.Sym = fmt.Sprintf("trunc%d(%s)", w, a.Sym)
	}
	return r
}

func bitAnd(x, y Bit) Bit {
	switch {
	case x.K == Zero || y.K == Zero:
		return Bit{}
	case x.K == One:
		return y
	case y.K == One:
		return x
	case (x.K == In || x.K == InNeg) && x == y:
		return x
	}
	return Bit{K: Unknown}
}

func bitOr(x, y Bit) Bit {
	switch {
	case x.K == One || y.K == One:
		return Bit{K: One}
	case x.K == Zero:
		return y
	case y.K == Zero:
		return x
	case x.K == In && y.K == In && x == y:
		return x
	}
	return Bit{K: Unknown}
}

func bitXor(x, y Bit) Bit {
	flip := func(b Bit) Bit {
		switch b.K {
		case In:
			b.K = InNeg
		case InNeg:
			b.K = In
		}
		return b
	}
	switch {
	case x.K == Zero:
		return y
	case y.K == Zero:
		return x
	case x.K == One && y.K == One:
		return Bit{}
	case x.K == One && (y.K == In || y.K == InNeg):
		return flip(y)
	case y.K == One && (x.K == In || x.K == InNeg):
		return flip(x)
	case x.K == In && y.K == In && x == y:
		return Bit{}
	}
	return Bit{K: Unknown}
}

func (a Int) And(b Int) Int {
	var r Int
	for i := range r.B {
		r.B[i] = bitAnd(a.B[i], b.B[i])
	}
	return r
}

func (a Int) Or(b Int) Int {
	var r Int
	for i := range r.B {
		r.B[i] = bitOr(a.B[i], b.B[i])
	}
	return r
}

func (a Int) Xor(b Int) Int {
	var r Int
	for i := range r.B {
		r.B[i] = bitXor(a.B[i], b.B[i])
	}
	return r
}

func (a Int) AndNot(b Int) Int {
	var r Int
	for i := range r.B {
		nb := b.B[i]
		switch nb.K {
		case Zero:
			nb = Bit{K: One}
		case One:
			nb = Bit{}
		default:
			nb = Bit{K: Unknown}
		}
		r.B[i] = bitAnd(a.B[i], nb)
	}
	return r
}

// Add is exact when both are constants or when no bit position can be 1 in both (then it is Or).
func (a Int) Add(b Int) Int {
	if x, ok := a.IsConst(); ok {
		if y, ok := b.IsConst(); ok {
			return ConstInt(x + y)
		}
	}
	if x, ok := a.IsConst(); ok && x == 0 {
		return b
	}
	if y, ok := b.IsConst(); ok && y == 0 {
		return a
	}
	disjoint := true
	for i := range a.B {
		if a.B[i].K != Zero && b.B[i].K != Zero {
			disjoint = false
		}
	}
	if disjoint && a.Sym == "" && b.Sym == "" {
		return a.Or(b)
	}
	r := UnknownInt("(" + a.String() + " + " + b.String() + ")")
	if la, lb := a.lower(), b.lower(); la < 1<<32 && lb < 1<<32 {
		r.Min = la + lb
	}
	return r
}

func (a Int) Sub(b Int) Int {
	if x, ok := a.IsConst(); ok {
		if y, ok := b.IsConst(); ok {
			return ConstInt(x - y)
		}
	}
	if y, ok := b.IsConst(); ok && y == 0 {
		return a
	}
	return UnknownInt("(" + a.String() + " - " + b.String() + ")")
}

func (a Int) Mul(b Int) Int {
	if x, ok := a.IsConst(); ok {
		if y, ok := b.IsConst(); ok {
			return ConstInt(x * y)
		}
		a, b = b, a
	}
	if y, ok := b.IsConst(); ok && a.Sym == "" {
		if y == 0 {
			return ConstInt(0)
		}
		if y&(y-1) == 0 {
			n := uint(0)
			for y > 1 {
				y >>= 1
				n++
			}
			return a.Shl(n)
		}
	}
	return UnknownInt("(" + a.String() + " * " + b.String() + ")")
}

// String is the canonical rendering: runs of input bits, constant bits, unknown bits, high to low.
func (a Int) String() string {
	if a.Sym != "" {
		return a.Sym
	}
	if v, ok := a.IsConst(); ok {
		return fmt.Sprintf("%d", v)
	}
	var parts []string
	i := 63
	for i >= 0 {
		b := a.B[i]
		switch b.K {
		case Zero:
			i--
		case One:
			// run of constant bits (with zeros) down to the next non-constant
			j := i
			var v uint64
			for j >= 0 && (a.B[j].K == One || a.B[j].K == Zero) {
				v = v<<1 | uint64(a.B[j].K)
				j--
			}
			// strip trailing zeros
			lo := j + 1
			for v != 0 && v&1 == 0 {
				v >>= 1
				lo++
			}
			parts = append(parts, fmt.Sprintf("0x%x@%d", v, lo))
			i = j
		case Unknown:
			j := i
			for j >= 0 && a.B[j].K == Unknown {
				j--
			}
			parts = append(parts, fmt.Sprintf("?[%d:%d]", i, j+1))
			i = j
		case In, InNeg:
			j := i
			for j-1 >= 0 && a.B[j-1].K == b.K && a.B[j-1].Src == b.Src && a.B[j-1].Off == b.Off && int(a.B[j-1].Idx) == int(a.B[j].Idx)-1 {
				j--
			}
			name := fmt.Sprintf("b%d", b.Off)
			if b.K == InNeg {
				name = "~" + name
			}
			if b.Src != "" {
				name = b.Src
				if b.Off >= 0 {
					name = fmt.Sprintf("%s.b%d", b.Src, b.Off)
				}
				if b.K == InNeg {
					name = "~" + name
				}
			}
			parts = append(parts, fmt.Sprintf("%s[%d:%d]@%d", name, b.Idx, a.B[j].Idx, j))
			i = j - 1
		}
	}
	if len(parts) == 0 {
		return "0"
	}
	return strings.Join(parts, "|")
}

// ---------------- values ----------------

type Val interface{ vstr() string }

// Bool: NZ != nil means "NZ is non-zero" (possibly negated); otherwise opaque.
type Bool struct {
	NZ  *Int
	Neg bool
	Op  string // opaque comparison text
}

func (b Bool) vstr() string {
	if b.NZ != nil {
		// position independent: the set of input bits that decide
		var bits []string
		one := false
		for _, x := range b.NZ.B {
			switch x.K {
			case One:
				one = true
			case In:
				n := fmt.Sprintf("b%d.%d", x.Off, x.Idx)
				if x.Src != "" {
					n = fmt.Sprintf("%s.b%d.%d", x.Src, x.Off, x.Idx)
				}
				bits = append(bits, n)
			case InNeg:
				bits = append(bits, fmt.Sprintf("~%sb%d.%d", x.Src, x.Off, x.Idx))
			case Unknown:
				bits = append(bits, "?")
			}
		}
		s := "nonzero{" + strings.Join(dedupSorted(bits), ",") + "}"
		if one {
			s = "true"
		} else if len(bits) == 0 {
			s = "false"
		}
		if b.Neg {
			switch s {
			case "true":
				return "false"
			case "false":
				return "true"
			}
			return "!" + s
		}
		return s
	}
	return "bool(" + b.Op + ")"
}

func dedupSorted(s []string) []string {
	sort.Strings(s)
	return dedup(s)
}

func (a Int) vstr() string { return a.String() }

// Slice [Lo,Hi) of source Src ("" receiver). HiLen: Hi is len(Src) (+HiAdj).
type Slice struct {
	Src   string
	Lo    Int
	Hi    Int
	HiLen bool
	Nil   bool
	Fresh bool // freshly allocated (contents not from the receiver)
}

func (s Slice) vstr() string {
	if s.Nil {
		return "nil"
	}
	if s.Fresh {
		return "fresh[" + s.Lo.String() + ":" + s.Hi.String() + "]"
	}
	src := s.Src
	if src == "" {
		src = "p"
	}
	hi := s.Hi.String()
	if s.HiLen {
		hi = "len"
	}
	return fmt.Sprintf("%s[%s:%s]", src, s.Lo.String(), hi)
}

// Addr: netip.Addr / array made from a slice.
type Addr struct {
	From Slice
	Kind string // "addr4", "addr16", "addrFromSlice", "array"
}

func (a Addr) vstr() string { return a.Kind + "(" + a.From.vstr() + ")" }

type Tuple struct{ F []Val }

func (t Tuple) vstr() string {
	var p []string
	for _, f := range t.F {
		p = append(p, Str(f))
	}
	return "(" + strings.Join(p, ", ") + ")"
}

// Struct is a struct value: fields by index (missing = zero value of the field type).
type Struct struct {
	T *types.Struct
	F map[int]Val
}

func (s Struct) vstr() string {
	var p []string
	for i := 0; i < s.T.NumFields(); i++ {
		if v, ok := s.F[i]; ok {
			p = append(p, s.T.Field(i).Name()+":"+Str(v))
		}
	}
	return "{" + strings.Join(p, " ") + "}"
}

// Get returns field i (zero value when never written).
func (s Struct) Get(i int) Val {
	if v, ok := s.F[i]; ok {
		return v
	}
	return ZeroOf(s.T.Field(i).Type())
}

// FieldByName returns the named field's value.
func (s Struct) FieldByName(name string) Val {
	for i := 0; i < s.T.NumFields(); i++ {
		if s.T.Field(i).Name() == name {
			return s.Get(i)
		}
	}
	return nil
}

func (s Struct) with(path []int, v Val) Struct {
	n := Struct{T: s.T, F: make(map[int]Val, len(s.F)+1)}
	for k, x := range s.F {
		n.F[k] = x
	}
	if len(path) == 1 {
		n.F[path[0]] = v
		return n
	}
	inner, ok := s.Get(path[0]).(Struct)
	if !ok {
		return n
	}
	n.F[path[0]] = inner.with(path[1:], v)
	return n
}

func (s Struct) at(path []int) Val {
	var cur Val = s
	for _, i := range path {
		st, ok := cur.(Struct)
		if !ok {
			return Opaque{"field of non-struct"}
		}
		cur = st.Get(i)
	}
	return cur
}

// ZeroOf is the zero value of a type in this domain.
func ZeroOf(t types.Type) Val {
	switch u := t.Underlying().(type) {
	case *types.Basic:
		if u.Info()&types.IsInteger != 0 {
			return ConstInt(0)
		}
		if u.Info()&types.IsBoolean != 0 {
			c := ConstInt(0)
			return Bool{NZ: &c}
		}
		return Opaque{"zero " + u.Name()}
	case *types.Slice:
		return Slice{Nil: true}
	case *types.Struct:
		return Struct{T: u, F: map[int]Val{}}
	case *types.Pointer, *types.Interface, *types.Map, *types.Chan, *types.Signature:
		return Opaque{"nil"}
	}
	return Opaque{"zero"}
}

type Opaque struct{ Why string }

func (o Opaque) vstr() string { return "opaque(" + o.Why + ")" }

// Ptr to an array view of a slice, or to a tracked local.
type Ptr struct {
	Arr   *Slice
	Local *ssa.Alloc
	Path  []int // field path inside the local
	Idx   *Int  // element pointer: index within Arr/slice
	Of    Slice // for element pointers
	Elem  bool
}

func (p Ptr) vstr() string { return "ptr" }

func Str(v Val) string {
	if v == nil {
		return "nil"
	}
	return v.vstr()
}

// ---------------- evaluator ----------------

// Write is one entry of an encoder's write log.
type Write struct {
	Dst   Slice  // destination bytes [Lo,Hi) of Dst.Src
	Val   string // canonical value (for single bytes / integers) or source slice for copies
	V     Val    // the value written (Int for byte/be/le writes, Slice/Addr for copies)
	Kind  string // "byte", "be", "le", "copy"
	Width int    // bytes (0 = variable)
	Pos   token.Pos
}

// Image applies the writes in order to a byte map of buffer src: offset -> 8-bit value.
// Writes at non-constant offsets, or copies of unknown extent, poison the offsets they may touch
// (recorded as Unknown bytes from their start to `limit`).
func Image(ws []Write, src string, limit int) map[int]Int {
	img := map[int]Int{}
	poison := func(from int, why string) {
		for k := from; k < limit; k++ {
			u := UnknownInt(why)
			img[k] = u
		}
	}
	for wi, w := range ws {
		if w.Dst.Src != src {
			continue
		}
		lo, ok := w.Dst.Lo.IsConst()
		if !ok {
			// a write at a symbolic offset may touch everything from its lower bound on
			poison(int(w.Dst.Lo.lower()), "write at "+w.Dst.Lo.String())
			continue
		}
		switch w.Kind {
		case "poison":
			hi := limit
			if h, ok := w.Dst.Hi.IsConst(); ok && !w.Dst.HiLen && int(h) < hi {
				hi = int(h)
			}
			for k := int(lo); k < hi; k++ {
				img[k] = UnknownInt(w.Val)
			}
		case "byte":
			if v, ok := w.V.(Int); ok {
				img[int(lo)] = v.Trunc(8)
			} else {
				img[int(lo)] = UnknownInt(Str(w.V))
			}
		case "be", "le":
			v, ok := w.V.(Int)
			for k := 0; k < w.Width; k++ {
				if !ok {
					img[int(lo)+k] = UnknownInt(Str(w.V))
					continue
				}
				sh := uint(8 * (w.Width - 1 - k))
				if w.Kind == "le" {
					sh = uint(8 * k)
				}
				if v.Sym != "" {
					img[int(lo)+k] = UnknownInt(fmt.Sprintf("byte%d(%s)", sh/8, v.Sym))
				} else {
					img[int(lo)+k] = v.Shr(sh).Trunc(8)
				}
			}
		case "copy":
			// extent: the destination window when constant, else up to limit
			n := limit - int(lo)
			if hi, ok := w.Dst.Hi.IsConst(); ok && !w.Dst.HiLen {
				n = int(hi - lo)
			}
			var from Slice
			okSrc := false
			switch t := w.V.(type) {
			case Slice:
				from, okSrc = t, !t.Nil
			case Addr:
				from, okSrc = t.From, true
			}
			slo, sok := from.Lo.IsConst()
			if !okSrc || !sok {
				for k := 0; k < n; k++ {
					img[int(lo)+k] = UnknownInt("copy of " + Str(w.V))
				}
				continue
			}
			// the source may be shorter than the window: only its bytes are copied
			if shi, ok := from.Hi.IsConst(); ok && !from.HiLen && int(shi-slo) < n {
				n = int(shi - slo)
			}
			var simg map[int]Int
			if from.Fresh {
				simg = Image(ws[:wi], from.Src, limit)
			}
			for k := 0; k < n; k++ {
				if from.Fresh {
					if by, ok := simg[int(slo)+k]; ok {
						img[int(lo)+k] = by
					} else {
						img[int(lo)+k] = ConstInt(0) // fresh memory is zeroed
					}
				} else {
					img[int(lo)+k] = Byte(srcOr(from.Src, "p"), int(slo)+k)
				}
			}
		}
	}
	return img
}

func srcOr(s, d string) string {
	if s == "" {
		return d
	}
	return s
}

type Ret struct {
	Vals   []Val
	Path   string
	Writes []Write
	Panic  bool
	Loop   bool // the path was cut at a loop; Writes ends with the loop's write summary
}

// loopSummary over-approximates what the loop with header h may write: every store / copy / put
// inside the loop poisons its destination slice from the lowest offset it can have — the initial
// value of a monotonically increasing index (φ = init | φ + positive constant), else the slice start.
func (e *Eval) loopSummary(f *frame, h *ssa.BasicBlock) []Write {
	fn := h.Parent()
	inLoop := map[*ssa.BasicBlock]bool{}
	// blocks dominated by h that can reach h
	var reach func(b *ssa.BasicBlock, seen map[*ssa.BasicBlock]bool) bool
	reach = func(b *ssa.BasicBlock, seen map[*ssa.BasicBlock]bool) bool {
		if b == h {
			return true
		}
		if seen[b] {
			return false
		}
		seen[b] = true
		for _, s := range b.Succs {
			if reach(s, seen) {
				return true
			}
		}
		return false
	}
	for _, b := range fn.Blocks {
		if h.Dominates(b) {
			for _, s := range b.Succs {
				if reach(s, map[*ssa.BasicBlock]bool{}) {
					inLoop[b] = true
				}
			}
		}
	}
	inLoop[h] = true
	lowerOfIdx := func(idx ssa.Value) Int {
		if k, ok := idx.(*ssa.Const); ok {
			if v, ok := e.val(f, k).(Int); ok {
				return v
			}
		}
		if phi, ok := idx.(*ssa.Phi); ok && inLoop[phi.Block()] {
			var init Int
			haveInit, mono := false, true
			for i, ed := range phi.Edges {
				if !inLoop[phi.Block().Preds[i]] {
					if v, ok := e.val(f, ed).(Int); ok {
						init, haveInit = v, true
					} else {
						mono = false
					}
					continue
				}
				bo, ok := ed.(*ssa.BinOp)
				if !ok || bo.Op != token.ADD || bo.X != ssa.Value(phi) {
					mono = false
					continue
				}
				k, ok := bo.Y.(*ssa.Const)
				if !ok || k.Int64() <= 0 {
					mono = false
				}
			}
			if haveInit && mono {
				return ConstInt(init.lower())
			}
		}
		return ConstInt(0)
	}
	var out []Write
	poisonSlice := func(v ssa.Value, idx ssa.Value, pos token.Pos) {
		var base Slice
		switch t := e.val(f, v).(type) {
		case Slice:
			base = t
		case Ptr:
			switch {
			case t.Arr != nil:
				base = *t.Arr
			case t.Local != nil:
				if b, ok := f.locals[t.Local].(Slice); ok {
					base = b
				} else {
					return
				}
			default:
				return
			}
		default:
			// the slice value is defined inside the loop and was not evaluated: unknown destination
			return
		}
		d := base
		if idx != nil {
			d.Lo = base.Lo.Add(lowerOfIdx(idx))
		}
		out = append(out, Write{Dst: d, Val: "written in a loop", Kind: "poison", Pos: pos})
	}
	unknownDst := false
	for b := range inLoop {
		for _, ins := range b.Instrs {
			switch t := ins.(type) {
			case *ssa.Store:
				if ia, ok := t.Addr.(*ssa.IndexAddr); ok {
					if _, evaluated := f.env[ia.X]; evaluated || isParamOrConst(ia.X) {
						poisonSlice(ia.X, ia.Index, t.Pos())
					} else {
						unknownDst = true
					}
				}
			case *ssa.Call:
				if bi, ok := t.Call.Value.(*ssa.Builtin); ok && bi.Name() == "copy" {
					poisonSlice(t.Call.Args[0], nil, t.Pos())
					continue
				}
				if _, ok := t.Call.Value.(*ssa.Builtin); ok {
					continue
				}
				for _, a := range t.Call.Args {
					if _, ok := a.Type().Underlying().(*types.Slice); ok {
						poisonSlice(a, nil, t.Pos())
					}
				}
			}
		}
	}
	if unknownDst {
		// a store through a slice computed inside the loop: every tracked buffer may be written
		for _, v := range f.env {
			if s, ok := v.(Slice); ok && !s.Nil {
				d := s
				d.Lo = ConstInt(0)
				d.HiLen = true
				out = append(out, Write{Dst: d, Val: "written in a loop (unknown destination)", Kind: "poison"})
			}
		}
	}
	return out
}

func isParamOrConst(v ssa.Value) bool {
	switch v.(type) {
	case *ssa.Parameter, *ssa.Const:
		return true
	}
	return false
}

type Eval struct {
	MaxPaths int
	MaxDepth int
	Notes    []string
	// Extern lets the caller model additional callees: return (value, true) to handle.
	Extern func(e *Eval, callee *ssa.Function, args []Val) (Val, bool)
	// Inline restricts which module callees are evaluated in place (nil = all).
	Inline func(callee *ssa.Function) bool
	// Unroll allows a block to be revisited this many times on one path (loops with a concrete trip count).
	Unroll int
	// ByteValue overrides the value of byte off of source src (finite abstractions of the input).
	ByteValue func(src string, off int) (Int, bool)
	// StopAt ends a path when it enters a block for which it returns true; the values it returns become the path's result.
	StopAt func(b *ssa.BasicBlock, value func(ssa.Value) Val) ([]Val, bool)
	nmake  int
}

type frame struct {
	env    map[ssa.Value]Val
	locals map[*ssa.Alloc]Val
	writes []Write
	path   []string
}

func (f *frame) clone() *frame {
	n := &frame{env: make(map[ssa.Value]Val, len(f.env)), locals: make(map[*ssa.Alloc]Val, len(f.locals))}
	for k, v := range f.env {
		n.env[k] = v
	}
	for k, v := range f.locals {
		n.locals[k] = v
	}
	n.writes = append([]Write(nil), f.writes...)
	n.path = append([]string(nil), f.path...)
	return n
}

// Run evaluates fn with the given argument values and returns one Ret per explored path.
func (e *Eval) Run(fn *ssa.Function, args []Val) []Ret {
	if e.MaxPaths == 0 {
		e.MaxPaths = 128
	}
	if e.MaxDepth == 0 {
		e.MaxDepth = 5
	}
	return e.run(fn, args, 0)
}

func (e *Eval) run(fn *ssa.Function, args []Val, depth int) []Ret {
	if fn.Blocks == nil {
		return []Ret{{Vals: []Val{Opaque{"no body: " + fn.String()}}}}
	}
	f := &frame{env: map[ssa.Value]Val{}, locals: map[*ssa.Alloc]Val{}}
	for i, p := range fn.Params {
		if i < len(args) {
			f.env[p] = args[i]
		}
	}
	var out []Ret
	type work struct {
		b, pred *ssa.BasicBlock
		f       *frame
		visits  map[*ssa.BasicBlock]int
	}
	stack := []work{{fn.Blocks[0], nil, f, map[*ssa.BasicBlock]int{}}}
	for len(stack) > 0 {
		w := stack[len(stack)-1]
		stack = stack[:len(stack)-1]
		if len(out) >= e.MaxPaths {
			out = append(out, Ret{Vals: []Val{Opaque{"path limit"}}, Path: "path limit"})
			break
		}
		if w.visits[w.b] >= 1+e.Unroll {
			ws := append(w.f.writes, e.loopSummary(w.f, w.b)...)
			out = append(out, Ret{Vals: []Val{Opaque{"loop"}}, Path: strings.Join(w.f.path, " "), Writes: ws, Loop: true})
			continue
		}
		// the visit counts are owned by this path: they are copied only where the path forks
		vis := w.visits
		vis[w.b]++
		fr := w.f
		if e.StopAt != nil && depth == 0 {
			// φs of the block are evaluated first so that the hook sees them
			for _, ins := range w.b.Instrs {
				if t, ok := ins.(*ssa.Phi); ok {
					for i, p := range w.b.Preds {
						if p == w.pred {
							fr.env[t] = e.val(fr, t.Edges[i])
						}
					}
				}
			}
			if vals, stop := e.StopAt(w.b, func(v ssa.Value) Val { return e.val(fr, v) }); stop {
				out = append(out, Ret{Vals: vals, Path: strings.Join(fr.path, " && "), Writes: fr.writes})
				continue
			}
		}
		done := false
		for _, ins := range w.b.Instrs {
			switch t := ins.(type) {
			case *ssa.Phi:
				for i, p := range w.b.Preds {
					if p == w.pred {
						fr.env[t] = e.val(fr, t.Edges[i])
					}
				}
			case *ssa.If:
				c := e.val(fr, t.Cond)
				if b, ok := c.(Bool); ok && b.NZ != nil {
					if v, isC := b.NZ.IsConst(); isC {
						tr := (v != 0) != b.Neg
						nb := w.b.Succs[1]
						if tr {
							nb = w.b.Succs[0]
						}
						stack = append(stack, work{nb, w.b, fr, vis})
						done = true
						break
					}
				}
				f2 := fr.clone()
				fr.path = append(fr.path, Str(c))
				f2.path = append(f2.path, "!"+Str(c))
				vis2 := make(map[*ssa.BasicBlock]int, len(vis))
				for k, v := range vis {
					vis2[k] = v
				}
				stack = append(stack, work{w.b.Succs[1], w.b, f2, vis2})
				stack = append(stack, work{w.b.Succs[0], w.b, fr, vis})
				done = true
			case *ssa.Jump:
				stack = append(stack, work{w.b.Succs[0], w.b, fr, vis})
				done = true
			case *ssa.Return:
				var vs []Val
				for _, r := range t.Results {
					vs = append(vs, e.val(fr, r))
				}
				out = append(out, Ret{Vals: vs, Path: strings.Join(fr.path, " && "), Writes: fr.writes})
				done = true
			case *ssa.Panic:
				out = append(out, Ret{Panic: true, Path: strings.Join(fr.path, " && "), Writes: fr.writes})
				done = true
			case *ssa.Store:
				e.store(fr, t)
			case ssa.Value:
				fr.env[t] = e.instr(fr, t, depth)
			default:
				// Defer, RunDefers, DebugRef, Go, Send, MapUpdate: outside the domain
				switch ins.(type) {
				case *ssa.RunDefers, *ssa.DebugRef:
				default:
					e.Notes = append(e.Notes, fmt.Sprintf("%s: unsupported instruction %T", fn.Name(), ins))
				}
			}
			if done {
				break
			}
		}
	}
	return out
}

func (e *Eval) val(f *frame, v ssa.Value) Val {
	if r, ok := f.env[v]; ok {
		return r
	}
	switch t := v.(type) {
	case *ssa.Const:
		if t.Value == nil {
			if _, ok := t.Type().Underlying().(*types.Slice); ok {
				return Slice{Nil: true}
			}
			return Opaque{"nil"}
		}
		switch t.Value.Kind() {
		case constant.Int:
			if u, ok := constant.Uint64Val(t.Value); ok {
				return ConstInt(u)
			}
			if i, ok := constant.Int64Val(t.Value); ok {
				return ConstInt(uint64(i))
			}
		case constant.Bool:
			c := ConstInt(0)
			if constant.BoolVal(t.Value) {
				c = ConstInt(1)
			}
			return Bool{NZ: &c}
		case constant.String:
			return Opaque{"string " + t.Value.ExactString()}
		}
		return Opaque{"const " + t.Value.ExactString()}
	case *ssa.Global:
		return Opaque{"global " + t.Name()}
	case *ssa.Function:
		return Opaque{"func " + t.Name()}
	case *ssa.Parameter:
		return Opaque{"param " + t.Name()}
	}
	return Opaque{fmt.Sprintf("%T", v)}
}

func widthOf(t types.Type) (int, bool) {
	b, ok := t.Underlying().(*types.Basic)
	if !ok {
		return 64, false
	}
	switch b.Kind() {
	case types.Int8, types.Uint8:
		return 8, b.Kind() == types.Int8
	case types.Int16, types.Uint16:
		return 16, b.Kind() == types.Int16
	case types.Int32, types.Uint32:
		return 32, b.Kind() == types.Int32
	case types.Int, types.Int64:
		return 64, true
	}
	return 64, false
}

func (e *Eval) instr(f *frame, v ssa.Value, depth int) Val {
	switch t := v.(type) {
	case *ssa.BinOp:
		return e.binop(f, t)
	case *ssa.UnOp:
		x := e.val(f, t.X)
		switch t.Op {
		case token.MUL:
			return e.load(f, x)
		case token.NOT:
			if b, ok := x.(Bool); ok {
				b.Neg = !b.Neg
				return b
			}
		case token.XOR:
			if i, ok := x.(Int); ok {
				w, _ := widthOf(t.Type())
				return i.Xor(ConstInt(^uint64(0))).Trunc(w)
			}
		case token.SUB:
			if i, ok := x.(Int); ok {
				w, _ := widthOf(t.Type())
				return ConstInt(0).Sub(i).Trunc(w)
			}
		}
		return Opaque{"unop " + t.Op.String()}
	case *ssa.Convert:
		x := e.val(f, t.X)
		if i, ok := x.(Int); ok {
			if _, isBasic := t.Type().Underlying().(*types.Basic); isBasic {
				w, _ := widthOf(t.Type())
				sw, sgn := widthOf(t.X.Type())
				if sgn && sw < w && i.B[sw-1].K != Zero {
					// sign extension of a possibly negative value
					r := i
					for k := sw; k < w; k++ {
						r.B[k] = i.B[sw-1]
						if r.B[k].K == In {
							r.B[k] = Bit{K: Unknown}
						}
					}
					return r
				}
				return i.Trunc(w)
			}
		}
		return x
	case *ssa.ChangeType:
		return e.val(f, t.X)
	case *ssa.MakeInterface:
		return e.val(f, t.X)
	case *ssa.Slice:
		return e.slice(f, t)
	case *ssa.SliceToArrayPointer:
		if s, ok := e.val(f, t.X).(Slice); ok {
			n := t.Type().Underlying().(*types.Pointer).Elem().Underlying().(*types.Array).Len()
			ns := s
			ns.Hi = s.Lo.Add(ConstInt(uint64(n)))
			ns.HiLen = false
			return Ptr{Arr: &ns}
		}
		return Opaque{"slice to array of non-slice"}
	case *ssa.IndexAddr:
		x := e.val(f, t.X)
		idx, _ := e.val(f, t.Index).(Int)
		if _, ok := e.val(f, t.Index).(Int); !ok {
			idx = UnknownInt("index")
		}
		switch s := x.(type) {
		case Slice:
			return Ptr{Elem: true, Of: s, Idx: &idx}
		case Ptr:
			if s.Arr != nil {
				return Ptr{Elem: true, Of: *s.Arr, Idx: &idx}
			}
			if s.Local != nil {
				if arr, ok := f.locals[s.Local].(Slice); ok {
					return Ptr{Elem: true, Of: arr, Idx: &idx}
				}
				if a, ok := f.locals[s.Local].(Addr); ok {
					return Ptr{Elem: true, Of: a.From, Idx: &idx}
				}
			}
		}
		return Opaque{"indexaddr"}
	case *ssa.Alloc:
		elem := t.Type().Underlying().(*types.Pointer).Elem()
		if arr, ok := elem.Underlying().(*types.Array); ok {
			s := Slice{Src: fmt.Sprintf("local%d", len(f.locals)), Fresh: true, Lo: ConstInt(0), Hi: ConstInt(uint64(arr.Len()))}
			f.locals[t] = s
			return Ptr{Local: t}
		}
		f.locals[t] = ZeroOf(elem)
		return Ptr{Local: t}
	case *ssa.Extract:
		if tv, ok := e.val(f, t.Tuple).(Tuple); ok && t.Index < len(tv.F) {
			return tv.F[t.Index]
		}
		return Opaque{"extract"}
	case *ssa.Call:
		return e.call(f, t, depth)
	case *ssa.Field:
		if st, ok := e.val(f, t.X).(Struct); ok {
			return st.Get(t.Field)
		}
		return Opaque{"field"}
	case *ssa.FieldAddr:
		if p, ok := e.val(f, t.X).(Ptr); ok && p.Local != nil && !p.Elem && p.Arr == nil {
			return Ptr{Local: p.Local, Path: append(append([]int(nil), p.Path...), t.Field)}
		}
		return Opaque{"fieldaddr"}
	case *ssa.MakeSlice:
		ln, ok := e.val(f, t.Len).(Int)
		if !ok {
			ln = UnknownInt("makelen")
		}
		// named by the allocation site, so that every path calls the buffer the same
		return Slice{Src: fmt.Sprintf("make@%d", int(t.Pos())), Fresh: true, Lo: ConstInt(0), Hi: ln}
	case *ssa.TypeAssert:
		return Opaque{"typeassert"}
	case *ssa.Lookup:
		return Opaque{"lookup"}
	case *ssa.Index:
		return Opaque{"index"}
	}
	return Opaque{fmt.Sprintf("%T", v)}
}

func (e *Eval) load(f *frame, x Val) Val {
	p, ok := x.(Ptr)
	if !ok {
		if o, isO := x.(Opaque); isO && strings.HasPrefix(o.Why, "global ") {
			return o // the value of a package-level variable, by name
		}
		return Opaque{"load"}
	}
	switch {
	case p.Elem:
		if p.Of.Fresh {
			// store-to-load forwarding inside one path: the byte as the write log of this path leaves it (a freshly made
			// buffer starts zeroed), so that read-modify-write sequences (b[4] |= flag) keep their bits
			idx, isC := p.Idx.IsConst()
			lo, loC := p.Of.Lo.IsConst()
			if isC && loC {
				img := Image(f.writes, p.Of.Src, int(lo+idx)+1)
				if v, ok := img[int(lo+idx)]; ok {
					return v
				}
				clean := true
				for _, w := range f.writes {
					if w.Dst.Src == p.Of.Src && (w.Kind == "poison" || w.Kind == "copy") {
						clean = false
					}
				}
				if clean {
					return ConstInt(0)
				}
			}
			return UnknownInt("byte of fresh memory")
		}
		if p.Of.Nil {
			return Opaque{"load from nil"}
		}
		idx, isC := p.Idx.IsConst()
		lo, loC := p.Of.Lo.IsConst()
		if isC && loC {
			if e.ByteValue != nil {
				if v, ok := e.ByteValue(p.Of.Src, int(lo+idx)); ok {
					return v
				}
			}
			return Byte(p.Of.Src, int(lo+idx))
		}
		return UnknownInt("byte at " + p.Of.Lo.Add(*p.Idx).String())
	case p.Arr != nil:
		k := "array"
		return Addr{From: *p.Arr, Kind: k}
	case p.Local != nil:
		if len(p.Path) == 0 {
			return f.locals[p.Local]
		}
		if st, ok := f.locals[p.Local].(Struct); ok {
			return st.at(p.Path)
		}
		return Opaque{"load of field"}
	}
	return Opaque{"load"}
}

func (e *Eval) store(f *frame, st *ssa.Store) {
	p, ok := e.val(f, st.Addr).(Ptr)
	v := e.val(f, st.Val)
	if !ok {
		return
	}
	switch {
	case p.Local != nil:
		if len(p.Path) == 0 {
			f.locals[p.Local] = v
		} else if st, ok := f.locals[p.Local].(Struct); ok {
			f.locals[p.Local] = st.with(p.Path, v)
		}
	case p.Elem:
		lo := p.Of.Lo.Add(*p.Idx)
		f.writes = append(f.writes, Write{Dst: Slice{Src: p.Of.Src, Fresh: p.Of.Fresh, Lo: lo, Hi: lo.Add(ConstInt(1))}, Val: Str(v), V: v, Kind: "byte", Width: 1, Pos: st.Pos()})
	}
}

func (e *Eval) slice(f *frame, t *ssa.Slice) Val {
	x := e.val(f, t.X)
	var base Slice
	switch s := x.(type) {
	case Slice:
		base = s
	case Ptr:
		if s.Arr != nil {
			base = *s.Arr
		} else if s.Local != nil {
			if b, ok := f.locals[s.Local].(Slice); ok {
				base = b
			} else if a, ok := f.locals[s.Local].(Addr); ok {
				base = a.From
			} else {
				return Opaque{"slice of local"}
			}
		} else {
			return Opaque{"slice of pointer"}
		}
	default:
		return Opaque{"slice of " + Str(x)}
	}
	if base.Nil {
		return base
	}
	r := base
	if t.Low != nil {
		if lo, ok := e.val(f, t.Low).(Int); ok {
			r.Lo = base.Lo.Add(lo)
		} else {
			r.Lo = UnknownInt("low")
		}
	}
	if t.High != nil {
		if hi, ok := e.val(f, t.High).(Int); ok {
			if hi.Sym == "len("+srcName(base.Src)+")" && base.HiLen {
				// p[a:len(p)]
			} else {
				r.Hi = base.Lo.Add(hi)
				r.HiLen = false
			}
		} else {
			r.Hi = UnknownInt("high")
			r.HiLen = false
		}
	}
	return r
}

func srcName(s string) string {
	if s == "" {
		return "p"
	}
	return s
}

func (e *Eval) binop(f *frame, t *ssa.BinOp) Val {
	x, y := e.val(f, t.X), e.val(f, t.Y)
	xi, ok1 := x.(Int)
	yi, ok2 := y.(Int)
	w, _ := widthOf(t.X.Type())
	switch t.Op {
	case token.EQL, token.NEQ, token.LSS, token.LEQ, token.GTR, token.GEQ:
		if ok1 && ok2 {
			// x != 0, x == 0
			if c, isC := yi.IsConst(); isC && c == 0 && (t.Op == token.NEQ || t.Op == token.EQL) {
				if xi.Sym != "" && (xi.Min > 0 || xi.NonZero) {
					one := ConstInt(1)
					return Bool{NZ: &one, Neg: t.Op == token.EQL}
				}
				cp := xi
				return Bool{NZ: &cp, Neg: t.Op == token.EQL}
			}
			// (x & m) == m with a single-bit m: the same as (x & m) != 0
			if c, isC := yi.IsConst(); isC && c != 0 && c&(c-1) == 0 && (t.Op == token.NEQ || t.Op == token.EQL) {
				only := true
				for i, b := range xi.B {
					if b.K != Zero && uint64(1)<<uint(i) != c {
						only = false
					}
				}
				if only && xi.Sym == "" {
					cp := xi
					return Bool{NZ: &cp, Neg: t.Op == token.NEQ}
				}
			}
			if a, isA := xi.IsConst(); isA {
				if b, isB := yi.IsConst(); isB {
					var r bool
					sa, sb := int64(a), int64(b)
					switch t.Op {
					case token.EQL:
						r = a == b
					case token.NEQ:
						r = a != b
					case token.LSS:
						r = sa < sb
					case token.LEQ:
						r = sa <= sb
					case token.GTR:
						r = sa > sb
					case token.GEQ:
						r = sa >= sb
					}
					c := ConstInt(0)
					if r {
						c = ConstInt(1)
					}
					return Bool{NZ: &c}
				}
			}
			return Bool{Op: xi.String() + " " + t.Op.String() + " " + yi.String()}
		}
		return Bool{Op: Str(x) + " " + t.Op.String() + " " + Str(y)}
	}
	if bx, ok := x.(Bool); ok {
		if by, ok := y.(Bool); ok {
			return Bool{Op: bx.vstr() + " " + t.Op.String() + " " + by.vstr()}
		}
	}
	if !ok1 || !ok2 {
		return Opaque{"binop " + t.Op.String() + " on " + Str(x) + ", " + Str(y)}
	}
	var r Int
	switch t.Op {
	case token.AND:
		r = xi.And(yi)
	case token.OR:
		r = xi.Or(yi)
	case token.XOR:
		r = xi.Xor(yi)
	case token.AND_NOT:
		r = xi.AndNot(yi)
	case token.SHL:
		if c, ok := yi.IsConst(); ok && c < 64 {
			r = xi.Shl(uint(c))
		} else {
			r = UnknownInt("(" + xi.String() + " << " + yi.String() + ")")
		}
	case token.SHR:
		if c, ok := yi.IsConst(); ok && c < 64 {
			_, sgn := widthOf(t.X.Type())
			if sgn && xi.B[w-1].K != Zero {
				r = UnknownInt("(" + xi.String() + " >> " + yi.String() + " signed)")
			} else {
				r = xi.Shr(uint(c))
			}
		} else {
			r = UnknownInt("(" + xi.String() + " >> " + yi.String() + ")")
		}
	case token.ADD:
		r = xi.Add(yi)
	case token.SUB:
		r = xi.Sub(yi)
	case token.MUL:
		r = xi.Mul(yi)
	default:
		r = UnknownInt("(" + xi.String() + " " + t.Op.String() + " " + yi.String() + ")")
	}
	if r.Sym == "" {
		r = r.Trunc(w)
	}
	return r
}

func calleeName(c *ssa.Call) string {
	if f := c.Call.StaticCallee(); f != nil {
		return f.String()
	}
	if c.Call.IsInvoke() {
		return c.Call.Method.FullName()
	}
	return ""
}

func (e *Eval) call(f *frame, c *ssa.Call, depth int) Val {
	var args []Val
	for _, a := range c.Call.Args {
		args = append(args, e.val(f, a))
	}
	if b, ok := c.Call.Value.(*ssa.Builtin); ok {
		switch b.Name() {
		case "len", "cap":
			if s, ok := args[0].(Slice); ok {
				if s.Nil {
					return ConstInt(0)
				}
				if !s.HiLen {
					if b.Name() == "len" {
						return s.Hi.Sub(s.Lo)
					}
				}
				if lo, isC := s.Lo.IsConst(); isC && lo == 0 {
					return UnknownInt(b.Name() + "(" + srcName(s.Src) + ")")
				}
				return UnknownInt(b.Name() + "(" + s.vstr() + ")")
			}
			return UnknownInt(b.Name())
		case "copy":
			if d, ok := args[0].(Slice); ok {
				f.writes = append(f.writes, Write{Dst: d, Val: "copy " + Str(args[1]), V: args[1], Kind: "copy", Pos: c.Pos()})
			}
			return UnknownInt("copied")
		}
		return Opaque{"builtin " + b.Name()}
	}
	name := calleeName(c)
	read := func(n int, be bool) Val {
		s, ok := args[len(args)-1].(Slice)
		if !ok || s.Fresh || s.Nil {
			return UnknownInt("read of " + Str(args[len(args)-1]))
		}
		lo, ok := s.Lo.IsConst()
		if !ok {
			return UnknownInt(fmt.Sprintf("be%d at %s", n*8, s.Lo.String()))
		}
		if be {
			return BE(s.Src, int(lo), n)
		}
		return LE(s.Src, int(lo), n)
	}
	put := func(n int, be bool) Val {
		if s, ok := args[len(args)-2].(Slice); ok {
			d := s
			d.Hi = s.Lo.Add(ConstInt(uint64(n)))
			d.HiLen = false
			tag := "be"
			if !be {
				tag = "le"
			}
			f.writes = append(f.writes, Write{Dst: d, Val: tag + " " + Str(args[len(args)-1]), V: args[len(args)-1], Kind: tag, Width: n, Pos: c.Pos()})
		}
		return Opaque{"void"}
	}
	switch name {
	case "(encoding/binary.bigEndian).Uint16":
		return read(2, true)
	case "(encoding/binary.bigEndian).Uint32":
		return read(4, true)
	case "(encoding/binary.bigEndian).Uint64":
		return read(8, true)
	case "(encoding/binary.littleEndian).Uint16":
		return read(2, false)
	case "(encoding/binary.littleEndian).Uint32":
		return read(4, false)
	case "(encoding/binary.littleEndian).Uint64":
		return read(8, false)
	case "(encoding/binary.bigEndian).PutUint16":
		return put(2, true)
	case "(encoding/binary.bigEndian).PutUint32":
		return put(4, true)
	case "(encoding/binary.bigEndian).PutUint64":
		return put(8, true)
	case "(encoding/binary.littleEndian).PutUint16":
		return put(2, false)
	case "(encoding/binary.littleEndian).PutUint32":
		return put(4, false)
	case "net/netip.AddrFrom4", "net/netip.AddrFrom16":
		if a, ok := args[0].(Addr); ok {
			k := "addr4"
			if strings.HasSuffix(name, "16") {
				k = "addr16"
			}
			return Addr{From: a.From, Kind: k}
		}
		return Opaque{name + "(" + Str(args[0]) + ")"}
	case "(net/netip.Addr).As4", "(net/netip.Addr).As16", "(net/netip.Addr).AsSlice":
		var from Slice
		switch t := args[0].(type) {
		case Addr:
			from = t.From
		case Opaque:
			from = Slice{Src: strings.TrimPrefix(strings.TrimPrefix(t.Why, "param "), "global "), Lo: ConstInt(0), HiLen: true}
		default:
			return Opaque{name + "(" + Str(args[0]) + ")"}
		}
		switch {
		case strings.HasSuffix(name, "As4"):
			from.Hi, from.HiLen = from.Lo.Add(ConstInt(4)), false
			return Addr{From: from, Kind: "array"}
		case strings.HasSuffix(name, "As16"):
			from.Hi, from.HiLen = from.Lo.Add(ConstInt(16)), false
			return Addr{From: from, Kind: "array"}
		}
		return from
	case "net/netip.AddrFromSlice":
		if s, ok := args[0].(Slice); ok {
			c1 := ConstInt(1)
			return Tuple{F: []Val{Addr{From: s, Kind: "addrFromSlice"}, Bool{Op: "AddrFromSlice ok"}}}
			_ = c1
		}
		return Tuple{F: []Val{Opaque{"AddrFromSlice"}, Bool{Op: "ok"}}}
	}
	callee := c.Call.StaticCallee()
	if callee != nil && e.Extern != nil {
		if v, ok := e.Extern(e, callee, args); ok {
			return v
		}
	}
	if callee != nil && callee.Blocks != nil && depth < e.MaxDepth && callee.Pkg != nil && strings.HasPrefix(callee.Pkg.Pkg.Path(), "github.com/irai/packet") && (e.Inline == nil || e.Inline(callee)) {
		rets := e.run(callee, args, depth+1)
		// single-valued callee: all non-panicking paths agree
		var first *Ret
		same := true
		for i := range rets {
			if rets[i].Panic {
				continue
			}
			if first == nil {
				first = &rets[i]
				continue
			}
			if retStr(rets[i]) != retStr(*first) {
				same = false
			}
		}
		sameWrites := true
		for i := range rets {
			if !rets[i].Panic && first != nil && writesStr(rets[i].Writes) != writesStr(first.Writes) {
				sameWrites = false
			}
		}
		if first != nil && sameWrites {
			f.writes = append(f.writes, first.Writes...)
		} else {
			// paths differ in what they write: every written range becomes unknown
			for i := range rets {
				for _, w := range rets[i].Writes {
					pw := w
					if pw.Kind != "poison" {
						pw.Kind, pw.Val = "poison", "conditionally written by "+callee.Name()
					}
					f.writes = append(f.writes, pw)
				}
			}
		}
		if first != nil && same {
			if len(first.Vals) == 1 {
				return first.Vals[0]
			}
			return Tuple{F: first.Vals}
		}
		if first != nil {
			var alts []string
			for _, r := range rets {
				if !r.Panic {
					alts = append(alts, retStr(r))
				}
			}
			sort.Strings(alts)
			if callee.Signature.Results().Len() == 1 {
				if _, ok := callee.Signature.Results().At(0).Type().Underlying().(*types.Basic); ok {
					return UnknownInt(callee.Name() + "(){" + strings.Join(dedup(alts), " / ") + "}")
				}
			}
			return Opaque{callee.Name() + "(){" + strings.Join(dedup(alts), " / ") + "}"}
		}
	}
	// not evaluated in place: the callee may write through its slice arguments
	if !pureCallee(name) {
		for i, a := range args {
			sl, ok := a.(Slice)
			if !ok || sl.Nil {
				continue
			}
			off, writes := 0, true
			if callee != nil && callee.Blocks != nil && i < len(callee.Params) {
				off, writes = MinWriteOffset(callee, i, 0)
			}
			if !writes {
				continue
			}
			d := sl
			d.Lo = sl.Lo.Add(ConstInt(uint64(off)))
			f.writes = append(f.writes, Write{Dst: d, Val: "may be written by " + name, Kind: "poison", Pos: c.Pos()})
		}
	}
	if callee != nil && callee.Signature.Results().Len() == 1 {
		if _, ok := callee.Signature.Results().At(0).Type().Underlying().(*types.Basic); ok {
			return UnknownInt("call " + name)
		}
	}
	return Opaque{"call " + name}
}

func writesStr(ws []Write) string {
	var p []string
	for _, w := range ws {
		p = append(p, w.Dst.vstr()+"<-"+w.Kind+" "+w.Val)
	}
	return strings.Join(p, ";")
}

// pureCallee: external functions known not to write through slice arguments.
func pureCallee(name string) bool {
	for _, p := range []string{"bytes.", "net/netip.", "(net/netip.", "fmt.", "net.", "(net.", "strings.", "time.", "(time.", "(*sync.", "sync/atomic.", "(encoding/binary.bigEndian).Uint", "(encoding/binary.littleEndian).Uint", "errors."} {
		if strings.HasPrefix(name, p) {
			return true
		}
	}
	return false
}

// MinWriteOffset returns the smallest offset, relative to the start of slice parameter `param`, that fn may
// write (through the parameter or a re-slice of it, directly or in callees), and whether it writes at all.
func MinWriteOffset(fn *ssa.Function, param int, depth int) (int, bool) {
	if fn.Blocks == nil || param >= len(fn.Params) {
		return 0, true
	}
	if depth > 3 {
		return 0, true
	}
	p := fn.Params[param]
	var derive func(v ssa.Value, d int) (int, bool)
	derive = func(v ssa.Value, d int) (int, bool) {
		if d > 8 {
			return 0, false
		}
		switch t := v.(type) {
		case *ssa.Parameter:
			return 0, t == p
		case *ssa.Slice:
			lo, ok := derive(t.X, d+1)
			if !ok {
				return 0, false
			}
			if k, isC := t.Low.(*ssa.Const); isC && t.Low != nil {
				lo += int(k.Int64())
			}
			return lo, true
		case *ssa.ChangeType:
			return derive(t.X, d+1)
		case *ssa.Convert:
			return derive(t.X, d+1)
		case *ssa.Phi:
			min, any := 1<<30, false
			for _, e := range t.Edges {
				if lo, ok := derive(e, d+1); ok {
					any = true
					if lo < min {
						min = lo
					}
				}
			}
			return min, any
		}
		return 0, false
	}
	min, writes := 1<<30, false
	note := func(off int) {
		writes = true
		if off < min {
			min = off
		}
	}
	for _, b := range fn.Blocks {
		for _, ins := range b.Instrs {
			switch t := ins.(type) {
			case *ssa.Store:
				if ia, ok := t.Addr.(*ssa.IndexAddr); ok {
					if lo, ok := derive(ia.X, 0); ok {
						if k, isC := ia.Index.(*ssa.Const); isC {
							lo += int(k.Int64())
						}
						note(lo)
					}
				}
			case ssa.CallInstruction:
				cc := t.Common()
				if bi, ok := cc.Value.(*ssa.Builtin); ok {
					if bi.Name() == "copy" {
						if lo, ok := derive(cc.Args[0], 0); ok {
							note(lo)
						}
					}
					continue
				}
				callee := cc.StaticCallee()
				nm := ""
				if callee != nil {
					nm = callee.String()
				}
				for i, a := range cc.Args {
					lo, ok := derive(a, 0)
					if !ok {
						continue
					}
					switch {
					case strings.Contains(nm, "encoding/binary") && strings.Contains(nm, ").Put"):
						note(lo)
					case pureCallee(nm):
					case callee != nil && callee.Blocks != nil:
						if off, w := MinWriteOffset(callee, i, depth+1); w {
							note(lo + off)
						}
					default:
						note(lo)
					}
				}
			}
		}
	}
	if !writes {
		return 0, false
	}
	return min, true
}

func dedup(s []string) []string {
	var out []string
	for i, x := range s {
		if i == 0 || x != s[i-1] {
			out = append(out, x)
		}
	}
	return out
}

func retStr(r Ret) string {
	var p []string
	for _, v := range r.Vals {
		p = append(p, Str(v))
	}
	return strings.Join(p, ", ")
}

// RetString renders the values of a return.
func RetString(r Ret) string { return retStr(r) }
